#!/usr/bin/env python3
"""Print the markdown table of seeded changes (seeded/*/meta.json) for DESIGN.md 7.6."""
import json,glob,os,re
rows=[]
for f in sorted(glob.glob(os.path.join(os.path.dirname(os.path.abspath(__file__)),'seeded','C*','meta.json'))):
    m=json.load(open(f))
    v=m.get('verified',{})
    own=' '.join('%s=%s'%(k.replace('own-tests','own'),re.sub(r'\(.*','',str(x))) for k,x in v.items() if k.startswith('own-tests'))
    demo='ok' if v.get('demo-without-change')=='PASS' and str(v.get('demo-with-change','')).startswith('FAIL') else 'CHECK'
    caught=m.get('caught_by') or ('NOT caught by quick' if m.get('check_exit')==0 else 'exit %s'%m.get('check_exit'))
    extra=m.get('also','')
    title=m.get('title','').replace('|','\\|')
    title=re.sub(r'^(Seed\s+)?C\d\d-\d\s*[—-]\s*','',title)
    rows.append('| %s | %s | %s | %s | %s%s |'%(m['seed'],title[:150],demo,own or '-',caught,(' ; '+extra) if extra else ''))
print('| Seed | Change | demo fails with / passes without | package tests with the change | caught by |')
print('|---|---|---|---|---|')
print('\n'.join(rows))
