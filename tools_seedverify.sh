#!/bin/bash
# tools_seedverify.sh <seed-dir> <ID> [tier]
# Confirms a seeded change (patch.diff + demo_test.go + demo_path.txt) in a
# scratch worktree outside /repo and /verif: demo passes without it, fails
# with it, the project builds, the affected package's own tests pass; then runs
# ./check <ID> against it through a go -overlay (never touching /repo).
set -u
seed="$(cd "$1" && pwd)"; id="$2"; tier="${3:-quick}"
export GOFLAGS=-mod=mod GOPROXY=off
wt=/tmp/wt-verify-$$
git -C /repo worktree add -q --detach "$wt" HEAD || exit 2
cleanup() { git -C /repo worktree remove --force "$wt" >/dev/null 2>&1; rm -rf "$wt"; }
trap cleanup EXIT
demo_path=$(cat "$seed/demo_path.txt" 2>/dev/null | head -1 | tr -d '[:space:]')
res=()
if [ -n "$demo_path" ] && [ -f "$seed/demo_test.go" ]; then
  cp "$seed/demo_test.go" "$wt/$demo_path"
  pkg="./$(dirname "$demo_path")/"
  tests=$(grep -oE '^func (Test[A-Za-z0-9_]+)' "$seed/demo_test.go" | awk '{print $2}' | paste -sd'|')
  (cd "$wt" && go test -count=1 -run "^($tests)\$" "$pkg" >/tmp/seedv-$$.log 2>&1) && res+=("demo-without-change=PASS") || res+=("demo-without-change=FAIL")
else
  res+=("demo=missing"); pkg=""
fi
(cd "$wt" && git apply "$seed/patch.diff") || { echo "patch does not apply"; exit 2; }
changed=$(cd "$wt" && git diff --name-only)
(cd "$wt" && go build ./... && go vet ./serf/ ./client/ ./coordinate/ ./cmd/... >/tmp/seedv-$$.log 2>&1) && res+=("build+vet=OK") || res+=("build+vet=FAIL")
if [ -n "$pkg" ]; then
  (cd "$wt" && go test -count=1 -run "^($tests)\$" "$pkg" >/tmp/seedv-$$.log 2>&1) && res+=("demo-with-change=PASS(!)") || res+=("demo-with-change=FAIL(expected)")
  rm -f "$wt/$demo_path"
fi
# the package's own tests with the change (retry once: they are timing sensitive under load)
for p in $(for f in $changed; do dirname "$f"; done | sort -u); do
  ok=FAIL
  for try in 1 2 3; do
    (cd "$wt" && unshare -n bash -c "ip link set lo up; go test -count=1 ./$p/" >/tmp/seedv-$$.log 2>&1)
    rest=$(grep -E "^--- FAIL" /tmp/seedv-$$.log | awk '{print $3}' | sort -u | grep -v -E '^(TestSyslogFilter|TestCommandRun_mDNS)$' | tr '\n' ' ')
    if ! grep -qE "^(FAIL|panic)" /tmp/seedv-$$.log || { [ -z "$rest" ] && ! grep -q "^panic" /tmp/seedv-$$.log; }; then ok=PASS; break; fi
  done
  res+=("own-tests[$p]=$ok"); [ $ok = FAIL ] && grep -E "^--- FAIL" /tmp/seedv-$$.log | head -5
done
# overlay for the check
ov=$(mktemp /tmp/seedov.XXXXXX.json)
python3 - "$wt" "$ov" $changed <<'PY'
import json,sys,shutil,os,tempfile
wt,ov=sys.argv[1],sys.argv[2]
d=tempfile.mkdtemp(prefix="seedfiles.")
rep={}
for f in sys.argv[3:]:
    dst=os.path.join(d,f.replace("/","__"))
    shutil.copyfile(os.path.join(wt,f),dst)
    rep["/repo/"+f]=dst
json.dump({"Replace":rep},open(ov,"w"))
print(d)
PY
echo "${res[@]}"
cd /verif && VERIF_MUTANT_OVERLAY="$ov" ./check "$id" "$tier" 2>&1 | grep -v "^KNOWN" | grep -E "^\[|VIOLATION|quick:|thorough:|INFRA|crash|BUILD" | head -6 | cut -c1-300
echo "check-exit=${PIPESTATUS[0]}"
rm -f /tmp/seedv-$$.log
