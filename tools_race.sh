#!/bin/bash
# tools_race.sh <pkg> <overlay-mode|-> <TestName> <cases> [seed]
# Runs one check's generated cases under the Go race detector (same build as
# ./check: tags, overlay). A data race is reported by the runtime on stderr
# ("WARNING: DATA RACE") and makes the test binary exit non-zero. This is a
# side instrument (a sanitizer run in the sense of the fuzzing guidance), not
# a registered tier: a race is a hazard to look into, not by itself a
# violation of a listed property.
export GOFLAGS=-mod=mod GOPROXY=off
pkg=$1; mode=$2; test=$3; n=$4; seed=${5:-1}
d=$(mktemp -d /tmp/race.XXXXXX)
ov=()
tags=verif
if [ "$mode" != "-" ]; then
  go run ./overlaygen -repo /repo -out "$d/ov" -mode "$mode" >/dev/null || exit 2
  ov=(-overlay "$d/ov/overlay.json"); tags=verif,verifoverlay
fi
mkdir -p "$d/out"
(cd props/$pkg && VERIF_OUT="$d/out" VERIF_KNOWN=/verif/known_findings.json go test -race -tags $tags "${ov[@]}" -run "^$test\$" -rapid.checks=$n -rapid.seed=$seed -rapid.nofailfile -timeout 3000s . > "$d/log" 2>&1)
rc=$?
races=$(grep -c "WARNING: DATA RACE" "$d/log")
echo "$pkg $test cases=$n seed=$seed exit=$rc races=$races"
if [ "$races" != "0" ]; then grep -A40 "WARNING: DATA RACE" "$d/log" | head -120; fi
if [ "$rc" != "0" ] && [ "$races" = "0" ]; then grep -v "^KNOWN" "$d/log" | tail -20; fi
rm -rf "$d"
