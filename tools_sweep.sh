#!/bin/bash
# tools_sweep.sh "<seeds>" [load] : run every quick check at each seed on the unchanged tree;
# with "load", 24 busy-loop processes run alongside. Prints every non-zero exit.
seeds="$1"; load="$2"
pids=()
if [ "$load" = "load" ]; then
  for i in $(seq 24); do (while :; do :; done) & pids+=($!); done
fi
trap 'kill ${pids[@]} 2>/dev/null' EXIT
bad=0
for sd in $seeds; do
  for f in checks.d/*.json; do
    id=$(basename $f .json)
    out=$(VERIF_SEED=$sd ./check $id quick 2>&1); rc=$?
    if [ $rc -ne 0 ]; then bad=$((bad+1)); echo "seed=$sd $id rc=$rc"; echo "$out" | grep -v "^KNOWN" | head -5 | cut -c1-400; fi
  done
  echo "seed $sd done ($(date +%H:%M:%S)), failures so far: $bad"
done
echo "SWEEP DONE failures=$bad"
